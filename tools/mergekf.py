#!/usr/bin/env python3
"""Resolve a known_findings.json merge conflict: union of ours (HEAD) and theirs (MERGE_HEAD)."""
import json, subprocess
def load(ref):
    try:
        return json.loads(subprocess.check_output(['git', 'show', ref + ':known_findings.json'], cwd='/verif'))
    except Exception:
        return []
ours, theirs = load('HEAD'), load('MERGE_HEAD')
allf = ours + [t for t in theirs if t not in ours]
json.dump(allf, open('/verif/known_findings.json', 'w'), indent=1)
print(len(ours), len(theirs), len(allf))
