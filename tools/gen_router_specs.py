#!/usr/bin/env python3
"""Generates checks/C01,C05,C06,C07,C09,C12,C08 specs (router step harness) from one class table."""
import json, os
root = os.path.dirname(os.path.dirname(os.path.abspath(__file__)))

def cls(s0, s1, s2, ingress=-1, ptype=1, dl=0, sl=0, pld=8, nh=17, rsv0=0, headroom=64, **extra):
    d = {"ptype": ptype, "dl": dl, "sl": sl, "pld": pld, "s0": s0, "s1": s1, "s2": s2,
         "ingress": ingress, "nh": nh, "rsv0": rsv0, "headroom": headroom}
    d.update(extra)
    return d

STUBS = ["vMAC: AES-CMAC under the forwarding key = uninterpreted function hfmac(16-byte input) -> 16 bytes (functional; the solver picks the values)",
         "vLink: harness Link implementation recording Resolve/Send; Resolve fails with ErrNoSVCBackend for service addresses when the symbolic flag svc.missing is set",
         "time.Now: symbolic non-decreasing wall clock (engine) / verif.Now (native replay, via replay_rewrite of router/dataplane.go)",
         "pkg/log, metrics: no-ops"]
ASSUME = ["router configuration of the harness: external interfaces 1 and 2, interfaces 3 and 258 on sibling router A (one shared link), 65535 on sibling router B, internal link 0; interface identifiers are concrete, link types, neighbour ISD-ASes, link up/down state, the local ISD-AS and the clock are symbolic",
          "packet layout class (path type, address lengths, segment lengths, next-header value, payload length) is concrete per instance; every other packet bit is symbolic"]
NOTCOV = ["layout classes other than the listed instances (one segment of 2 or 3 hops, two segments of 2+2 hops, 4-byte host addresses, UDP next header unless an instance says otherwise), longer paths, three segments, extension headers, payloads longer than the class's pld bytes (payload bytes are not inspected by the checked decisions)",
          "interface tables other than the harness topology"]

def spec(pid, files, fn, twin, covers, quick, thorough, twinparams, extra_assume=(), extra_notcov=(), level_text="", rsv0=0, stubs=STUBS):
    h = {"router/zz_verif_router.go": "harness/router/zz_verif_router.go"}
    for f in files:
        h["router/zz_verif_%s.go" % f] = "harness/router/zz_verif_%s.go" % f
    entries = []
    seen = set()
    for tier, lst in (("quick", quick), ("thorough", thorough)):
        for c in lst:
            c = dict(c); c["rsv0"] = rsv0
            key = json.dumps(c, sort_keys=True)
            if key in seen:
                continue
            seen.add(key)
            tiers = ["quick", "thorough"] if tier == "quick" else ["thorough"]
            entries.append({"func": fn, "params": c, "tiers": tiers})
    tp = dict(twinparams); tp["rsv0"] = rsv0
    entries.append({"func": twin, "params": tp, "must_fail": True})
    return {
        "property": pid, "registered": True, "packages": ["./router"], "harness": h, "test_pkg": "./router",
        "replay_rewrite": ["router/dataplane.go"],
        "entries": entries,
        "tiers": {"quick": {"max_paths": 200000, "selfcheck_max": 24, "max_decisions": 600},
                  "thorough": {"max_paths": 2000000, "selfcheck_max": 64, "query_timeout_s": 300, "max_decisions": 800}},
        "covers": covers, "assumptions": ASSUME + list(extra_assume), "not_covered": NOTCOV + list(extra_notcov),
        "stubs": stubs,
        "level_text": level_text,
        "level_note": "Trusted: go/ssa front end and the symgo interpreter (validated on every run by the native differential self-check on solver witnesses), z3 4.8.12 with cvc5/z3-new fall-backs, the idealised MAC (uninterpreted function), the reference parser/oracle in harness/router written from doc/protocols/scion-header.rst and the property text.",
        "design_ref": "DESIGN.md 6.1 and 7/" + pid,
    }

A3 = cls(3, 0, 0)
B22 = cls(2, 2, 0)
A2 = cls(2, 0, 0)
Q = [A3, B22]
# thorough = quick + the further instances that ran clean during development (all ingress kinds)
T = Q + [A2]
LT = "Bounded symbolic model checking of the real router fast path (scionPacketProcessor.processPkt and everything below it: slayers decoding, scion.Raw path handling, MAC computation glue, expiry arithmetic) on a data plane built directly in memory: per layout class every remaining packet bit, the link types, neighbours, link state, local ISD-AS, MAC function values and the clock are solver variables; z3 decides every clause on every explored path; witnesses are replayed natively and compared."

specs = {
 "C01": spec("C01", ["c01"], "VerifC01Scion", "VerifC01Twin", ["forwarded", "forwarded-xover", "scmp-bad-mac", "scmp-expired"],
             [cls(3, 0, 0, ingress=1), cls(3, 0, 0, ingress=0), cls(2, 2, 0, ingress=1)], [A3, A2, cls(2, 2, 0, ingress=3)], cls(3, 0, 0, ingress=1), level_text=LT,
             extra_assume=["the accumulator used for the MAC of the current hop is the packet's SegID after the ingress update of scion-header.rst (against construction direction, packet received on an external link, not a peering hop); for the first hop after a cross-over it is the SegID of the new segment as received"],
             extra_notcov=["EPIC path type is covered by C13's harness, not here", "the SCMP message bytes (C09); here the slow-path request (type, code, pointer) is checked"]),
 "C05": spec("C05", ["c05"], "VerifC05", "VerifC05Twin", ["fwd-external", "fwd-internal", "fwd-transit-out", "delivered", "scmp-invalid-src", "scmp-invalid-dst"], [A3, cls(2, 2, 0, ingress=0), cls(2, 2, 0, ingress=3)], T, cls(3, 0, 0, ingress=1), level_text=LT),
 "C06": spec("C06", ["c06"], "VerifC06", "VerifC06Twin", ["forwarded-out", "forwarded-segment-change", "forwarded-within-segment", "forwarded-from-inside", "scmp-invalid-path", "scmp-invalid-segment-change"], [cls(3, 0, 0, ingress=1), cls(3, 0, 0, ingress=0), cls(2, 2, 0, ingress=1)], [A3, A2, cls(2, 2, 0, ingress=0)], cls(2, 2, 0, ingress=1), level_text=LT),
 "C07": spec("C07", ["c07"], "VerifC07", "VerifC07Twin", ["forwarded"], [cls(3, 0, 0, ingress=1), cls(3, 0, 0, ingress=3), cls(2, 2, 0, ingress=1)], T, cls(3, 0, 0, ingress=1), level_text=LT, rsv0=1,
             extra_assume=["reserved bits of the path meta header, info fields and hop fields are zero, as a conforming sender sets them (the router re-serialises these fields from their decoded form)"],
             extra_notcov=["one-hop path completion is checked by C12's clause only-second-hop-and-segid-change"]),
}
specs["C09"] = spec("C09", ["c09"], "VerifC09", "VerifC09Twin", ["scmp-emitted", "parameter-problem"],
             [cls(2, 0, 0, ingress=1), cls(2, 0, 0, ingress=0), cls(2, 0, 0, ingress=1, nh=202), cls(2, 0, 0, ingress=1, big=1300, lh6=1)],
             [cls(2, 0, 0, ingress=1, big=1300, nh=202, lh6=1)], cls(2, 0, 0, ingress=1), level_text=LT.replace("fast path (", "fast path and slow path (slowPathPacketProcessor.processPacket / packSCMP / prepareSCMP; "), rsv0=1,
             extra_assume=["reserved bits of the offending packet's path meta header, info fields and hop fields are zero (scion.Raw.ToDecoded re-serialises the meta header into the packet buffer before it is quoted, which would clear non-zero reserved bits)",
                           "the router's own address is IPv4 10.1.2.3, or IPv6 fd00::a01:203 in the instances with lh6=1; SCMP authentication is off",
                           "checksum clause: the emitted checksum equals what the real slayers checksum code computes over the emitted message with the emitted pseudo header (the arithmetic itself is C20's subject)"],
             extra_notcov=["offending packets beyond the listed sizes; in the large-packet instances (parameter big) only the class's leading bytes are symbolic, the remaining payload is concrete zeros (lengths, truncation at 1232 bytes and the checksum over the truncated quote are exercised, payload content is not)", "authenticated SCMP (ExperimentalSCMPAuthentication) and traceroute replies", "cause table beyond type/code/pointer consistency with the fast-path request (the request itself is checked by C01, C05, C06)"])
specs["C09"]["term_opts"] = ["linsum", "sumabs"]
OH = lambda **kw: cls(0, 0, 0, ptype=2, **kw)
specs["C12"] = spec("C12", ["c12"], "VerifC12", "VerifC12Twin", ["ohp-out", "ohp-in"],
             [OH(), OH(sl=3, dl=3), OH(nh=202)], [OH(dl=1, sl=2), OH(nh=203), OH(pld=20, nh=6)], OH(ingress=0), level_text=LT, rsv0=1,
             extra_assume=["reserved bits of the common header and of the one-hop path are zero (the router re-serialises the whole SCION header of a one-hop packet)"],
             extra_notcov=["the clause that the reversed one-hop path is accepted by both routers (needs a two-router walk: see C03 in DESIGN.md)", "bfdSend.Send (BFD over one-hop paths)"])
c08 = spec("C08", ["c08"], "VerifC08", "VerifC08Twin", ["processed"], [], [], {"ingress": 1, "headroom": 64, "len": 72}, level_text="Bounded symbolic model checking of the real fast path and slow path on completely unconstrained byte strings of every listed length (no layout assumptions: the engine discovers the layouts by forking), on every ingress link kind: no feasible Go run-time panic (index, slice, nil, failed assertion, explicit panic) on any path, and every forwarded or emitted packet decodes with consistent header length, payload length and path pointers.",
           extra_assume=[], extra_notcov=["byte strings longer than 44 bytes (lengths 68 and 72, the shortest that can be forwarded, were run once during development: 68 exposed the one-hop payload-length finding, now repaired; they are too slow for a registered tier), so the forwarded/emitted consistency clauses are exercised by C07, C09 and C12 rather than here; STUN messages and internalLink.processPacket (package udpip)", "SCMP authentication on"])
c08["entries"] = [{"func": "VerifC08", "params": {"ingress": -1, "headroom": 64, "len": n}, "tiers": ["quick", "thorough"]} for n in (0, 1, 11, 12, 13, 35, 36, 40, 44)] + \
    [{"func": "VerifC08", "params": {"ingress": -1, "headroom": 64}, "sweep": {"len": {"thorough": [2, 44]}}, "tiers": ["thorough"]},
     {"func": "VerifC08TwinDrop", "params": {"ingress": 1, "headroom": 64, "len": 36}, "must_fail": True}]
c08["assumptions"] = [ASSUME[0]]
c08["not_covered"] = c08["not_covered"][-2:]
c08["term_opts"] = ["linsum", "sumabs"]
specs["C08"] = c08
for pid, s in specs.items():
    json.dump(s, open(os.path.join(root, "checks", pid + ".json"), "w"), indent=1)
print("written", sorted(specs))
