#!/usr/bin/env python3
"""Regenerates the 'as built' per-property table of DESIGN.md (between the AS-BUILT markers) from checks/*.json,
tools/not_applicable.json and known_findings.json."""
import json, os, re, glob
root = os.path.dirname(os.path.dirname(os.path.abspath(__file__)))
props = [json.loads(l) for l in open(os.path.join(root, 'properties.jsonl'))]
na = json.load(open(os.path.join(root, 'tools/not_applicable.json')))
kf = json.load(open(os.path.join(root, 'known_findings.json')))
seeded = {}
for d in sorted(glob.glob(os.path.join(root, 'seeded', '*'))):
    try:
        m = json.load(open(os.path.join(d, 'meta.json')))
        seeded.setdefault(m['property'], []).append(m)
    except Exception:
        pass
out = []
for p in props:
    pid = p['id']
    f = os.path.join(root, 'checks', pid + '.json')
    out.append('### %s — %s' % (pid, p['title']))
    if os.path.exists(f) and json.load(open(f)).get('registered'):
        s = json.load(open(f))
        nq = sum(1 for e in s['entries'] if not e.get('tiers') or 'quick' in e['tiers'])
        out.append('*Claimed.* %s' % (s.get('level_text') or '').strip())
        out.append('')
        out.append('Instances: %d entry specs (%d in quick). Harness: %s. Details: `notes/%s.md` where present.' % (
            len(s['entries']), nq, ', '.join('`%s`' % v for v in sorted(set(s['harness'].values()))), pid))
        if s.get('assumptions'):
            out.append('')
            out.append('Assumptions: ' + ' | '.join(s['assumptions']))
        if s.get('not_covered'):
            out.append('')
            out.append('Outside the claim: ' + ' | '.join(s['not_covered']))
        if s.get('stubs'):
            out.append('')
            out.append('Stubs: ' + ' | '.join(s['stubs']))
    else:
        out.append('*Not claimed.* ' + na.get(pid, 'no check registered'))
    fs = [k for k in kf if k['property'] == pid]
    for k in fs:
        out.append('')
        if k['status'] == 'fixed':
            out.append('Finding (repaired by /repo commit %s): clause `%s` — %s' % (k.get('commit', '?'), k['clause'], k['what']))
        else:
            out.append('Finding (open, listed in known_findings.json): clause `%s` — %s' % (k['clause'], k['what']))
    for m in seeded.get(pid, []):
        out.append('')
        out.append('Seeded change `%s`: %s — needs: %s — **%s**' % (m.get('dir', '?'), m.get('summary', ''), m.get('needs', ''), m.get('detected', 'not yet run')))
    out.append('')
# seeded/SUMMARY.md
rows = ['# Seeded changes and the checks that report them', '',
        'Each directory holds patch.diff, the demonstration test and meta.json (what the change needs in order to manifest, what was confirmed in a scratch worktree, and the verdict of `VERIF_REPO=<worktree> ./check <ID> quick`).', '',
        '| property | change | needs | confirmed (applies / demo passes without / demo fails with / existing tests pass with) | check verdict |', '|---|---|---|---|---|']
for pid in sorted(seeded):
    for m in seeded[pid]:
        c = m.get('confirmed', {})
        conf = '/'.join('yes' if c.get(k) else 'NO' for k in ('patch_applies', 'demo_passes_without_change', 'demo_fails_with_change', 'existing_tests_of_touched_packages_pass_with_change'))
        rows.append('| %s | %s | %s | %s | %s |' % (pid, (m.get('summary', '') or '').replace('|', '/').replace('\n', ' ')[:400], (m.get('needs', '') or '').replace('|', '/').replace('\n', ' ')[:300], conf, m.get('detected', '')))
if seeded:
    open(os.path.join(root, 'seeded', 'SUMMARY.md'), 'w').write('\n'.join(rows) + '\n')
txt = '\n'.join(out)
dp = os.path.join(root, 'DESIGN.md')
d = open(dp).read()
a, b = '<!-- AS-BUILT BEGIN -->', '<!-- AS-BUILT END -->'
if a in d:
    d = d[:d.index(a) + len(a)] + '\n' + txt + '\n' + d[d.index(b):]
    open(dp, 'w').write(d)
    print('DESIGN.md updated (%d lines)' % len(out))
else:
    print('markers not found')
