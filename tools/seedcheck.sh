#!/bin/bash
# usage: tools/seedcheck.sh <ID> [srcdir]   — confirms a seeded change delivered in <srcdir> (default /tmp/mut/<ID>/OUT)
# in a scratch worktree of /repo's HEAD, runs the check <ID> against it, and stores the result in /verif/seeded/<ID>/.
set -u
ID="$1"; SRC="${2:-/tmp/mutout/$ID}"; [ -d "$SRC" ] || SRC=/tmp/mut/$ID/OUT; NAME="${3:-$ID}"
export PATH=/opt/veriftools/go1.26.8/bin:$PATH GOTOOLCHAIN=local GOFLAGS=-mod=mod GOPROXY=off GOSUMDB=off
V=/verif; WT=/tmp/seedwt/$NAME; OUTD=$V/seeded/$NAME
[ -f "$SRC/patch.diff" ] || { echo "no patch in $SRC"; exit 2; }
git -C /repo worktree remove --force $WT 2>/dev/null; rm -rf $WT
git -C /repo worktree add -q --detach $WT HEAD || exit 2
DEMO_REL=$(cat $SRC/demo_path.txt | tr -d '\n ')
DEMO_FILE=$(ls $SRC/*_test.go | head -1)
PKG=./$(dirname $DEMO_REL)
RUNPAT=$(grep -o 'func Test[A-Za-z0-9_]*' $DEMO_FILE | sed 's/func //' | paste -sd'|')
log() { echo "[$NAME] $*"; }
cd $WT
cp $DEMO_FILE $WT/$DEMO_REL
go test -vet=off -count=1 -run "^($RUNPAT)\$" $PKG > /tmp/seedwt/$NAME.demo0.log 2>&1; D0=$?
if ! git apply --check $SRC/patch.diff 2>/tmp/seedwt/$NAME.apply.log; then log "patch does not apply to current HEAD"; APPLY=1; else APPLY=0; git apply $SRC/patch.diff; fi
go build ./router/... ./control/... ./pkg/... ./private/path/... ./private/trust/... ./gateway/... ./dispatcher/... ./daemon/... > /tmp/seedwt/$NAME.build.log 2>&1; B=$?
go test -vet=off -count=1 -run "^($RUNPAT)\$" $PKG > /tmp/seedwt/$NAME.demo1.log 2>&1; D1=$?
rm -f $WT/$DEMO_REL
# existing tests of the touched packages (retry once: several router tests are timing-sensitive)
TOUCHED=$(grep '^+++ b/' $SRC/patch.diff | sed 's#+++ b/##' | xargs -n1 dirname | sort -u | sed 's#^#./#' | paste -sd' ')
go test -vet=off -count=1 $TOUCHED > /tmp/seedwt/$NAME.tests.log 2>&1; T=$?
if [ $T -ne 0 ]; then go test -vet=off -count=1 $TOUCHED > /tmp/seedwt/$NAME.tests.log 2>&1; T=$?; fi
log "apply=$APPLY build=$B demo_without=$D0 (want 0) demo_with=$D1 (want !=0) existing_tests_with=$T (want 0) touched=$TOUCHED"
cd $V
VERIF_REPO=$WT timeout ${SEED_TIMEOUT:-2400} ./check $ID ${SEED_TIER:-quick} -no-evidence ${SEED_FLAGS:-} > /tmp/seedwt/$NAME.check.log 2>&1; C=$?
VL=$(grep -m3 '^VIOLATION\|^  clause=' /tmp/seedwt/$NAME.check.log | tr '\n' ' ' | cut -c1-600)
log "check exit=$C $VL"
mkdir -p $OUTD
cp $SRC/patch.diff $OUTD/patch.diff; cp $DEMO_FILE $OUTD/; cp $SRC/demo_path.txt $OUTD/
python3 - "$SRC/meta.json" "$OUTD/meta.json" "$NAME" "$ID" "$APPLY" "$B" "$D0" "$D1" "$T" "$C" "$VL" "$TOUCHED" <<'PY'
import json, sys
src, dst, name, pid, apply_, b, d0, d1, t, c, vl, touched = sys.argv[1:13]
try: m = json.load(open(src))
except Exception: m = {}
m.update({"property": pid, "dir": "seeded/" + name,
  "confirmed": {"patch_applies": apply_ == "0", "builds": b == "0", "demo_passes_without_change": d0 == "0", "demo_fails_with_change": d1 != "0", "existing_tests_of_touched_packages_pass_with_change": t == "0", "touched_packages": touched},
  "check": {"cmd": "VERIF_REPO=<worktree with patch> ./check %s quick" % pid, "exit": int(c), "verdict_lines": vl},
  "detected": "caught (VIOLATION)" if c == "1" else ("not caught (check passes)" if c == "0" else "inconclusive (exit %s)" % c)})
json.dump(m, open(dst, "w"), indent=1)
PY
git -C /repo worktree remove --force $WT
