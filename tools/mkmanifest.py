#!/usr/bin/env python3
"""Regenerates MANIFEST.json from checks/*.json (registered ones) and tools/not_applicable.json."""
import json, glob, os, sys
root = os.path.dirname(os.path.dirname(os.path.abspath(__file__)))
props = [json.loads(l) for l in open(os.path.join(root, 'properties.jsonl'))]
base = json.load(open('/root/.vp/BASELINE.json'))
na = json.load(open(os.path.join(root, 'tools/not_applicable.json')))
checks = []
claimed = set()
for p in props:
    f = os.path.join(root, 'checks', p['id'] + '.json')
    if not os.path.exists(f):
        continue
    s = json.load(open(f))
    if not s.get('registered'):
        continue
    claimed.add(p['id'])
    c = {
        'property_id': p['id'],
        'quick_cmd': './check %s quick' % p['id'],
        'evidence_file': 'evidence/%s.json' % p['id'],
        'replay_cmd_template': './bin/symgo replay {path}',
        'engine': 'symgo',
        'level_claimed': {'category': 'model_checking', 'text': s['level_text'], 'design_ref': s.get('design_ref', 'DESIGN.md section 7 ' + p['id'])},
        'level_note': s['level_note'],
        'technique': s.get('technique', 'bounded symbolic execution of the go/ssa of the real code, assertions decided by z3 (QF_UFBV); counterexamples replayed natively'),
    }
    if 'thorough' in s.get('tiers', {}):
        c['thorough_cmd'] = './check %s thorough' % p['id']
    checks.append(c)
nas = []
for p in props:
    if p['id'] in claimed:
        continue
    nas.append({'property_id': p['id'], 'reason': na.get(p['id'], 'check not built yet (see DESIGN.md section 7 for the plan)')})
m = {
    'version': 1,
    'setup_cmd': './build.sh',
    'hooks': {'guard': 'verif', 'enable': 'none needed: harnesses and the verif support package enter through go/packages overlays (symbolic run) and go test -overlay (native replay); /repo carries no hooks',
              'baseline_off_cmd': base['cmd'], 'source_commits': [], 'add_only': True},
    'engines': [{'name': 'symgo', 'path': 'engine/', 'serves_properties': sorted(claimed),
                 'kind_free_text': 'symbolic interpreter for go/ssa (x/tools v0.50.0) with bit-vector terms, replay-based path forking, if-conversion, z3 -in back end, native differential self-check and counterexample replay via go test -overlay'}],
    'checks': checks,
    'notes': 'Exit 2 (INCONCLUSIVE lines) means a budget/unknown/unsupported/vacuity/self-check failure: neither pass nor violation. See DESIGN.md.',
    'not_applicable': nas,
}
json.dump(m, open(os.path.join(root, 'MANIFEST.json'), 'w'), indent=1)
print('claimed:', len(claimed), 'not applicable/unclaimed:', len(nas))
